"""Discharge of panic obligations (bounds checks, slice ranges, arithmetic overflow, division by zero,
`try_into().unwrap()` on slices, copy_from_slice lengths, untrusted allocation sizes) in the functions that parse
device bytes.  Purely static: a flow-sensitive (SSA-like) value reconstruction over the MIR event graph, facts taken from
branch edges / passed assertions that *dominate* the site, a table of semantic facts for library calls, and a small
integer Fourier-Motzkin procedure for linear entailment.  Nothing is executed and no solver is called.

Soundness argument for facts: every value is named by its unique defining node (calls, phi merges, arguments); a fact read
off an edge e that dominates the site p talks about values whose definitions dominate e, and in a plain CFG there is then no
path from such a definition to p that avoids e, so the fact still holds for the *current* dynamic instance of the value at p.
Locals whose address is taken mutably and struct fields that the body may store to are read as fresh opaque values.
"""
import math
import re
from collections import defaultdict

from . import analysis as A
from .analysis import E
from .model import callee_name, call_matches, path_matches, op_place

UMAX = {"u8": 2 ** 8 - 1, "u16": 2 ** 16 - 1, "u32": 2 ** 32 - 1, "u64": 2 ** 64 - 1, "usize": 2 ** 64 - 1, "u128": 2 ** 128 - 1, "bool": 1}
ISIZE_MAX = 2 ** 63 - 1
ALLOC_CAP = 1 << 31          # an allocation sized from device bytes must be provably below this

WRAPPERS = ("Deref::deref", "DerefMut::deref_mut", "Vec::as_slice", "Vec::as_mut_slice", "AsRef::as_ref", "AsMut::as_mut",
            "Borrow::borrow", "BorrowMut::borrow_mut", "IntoIterator::into_iter", "Iterator::by_ref", "Clone::clone",
            "AlignedBuffer::as_slice", "AlignedBuffer::as_mut_slice", "slice::as_ref", "Bytes::as_ref", "ToOwned::to_owned")


# ------------------------------------------------------------------------------------------------------------------------
# flow-sensitive value reconstruction

class Flow:
    def __init__(self, body):
        self.b = body
        self.memo = {}
        self.nv = {}
        self._phis = {}
        self._phi_pending = {}
        self._reach_tok = {}
        self._mut_calls = {}
        self._ftpl = {}
        # locals whose own storage is borrowed mutably (a reborrow `&mut (*p)` borrows the pointee, not p)
        self.mem = set()
        for n in body.nodes:
            if n.kind == "assign" and n.ev.get("rv") in ("ref", "rawptr") and (n.ev.get("mut") or n.ev.get("rv") == "rawptr"):
                pl = n.ev["pl"]
                if "*" not in [p for p in pl["p"] if not isinstance(p, dict)]:
                    self.mem.add(pl["l"])
        # fields that may be stored to in this body (through any base) are not stable across program points
        self.stored_fields = set()
        for n in body.nodes:
            d = None
            if n.kind == "assign":
                d = n.ev["dst"]
            elif n.kind == "call":
                d = n.ev.get("dest")
            if d and d["p"]:
                for p in d["p"]:
                    if isinstance(p, dict) and "f" in p:
                        self.stored_fields.add(p.get("n", str(p["f"])))
        # `&mut Struct` handed to a callee: any of its fields may change
        self.mut_passed = False
        for n in body.calls():
            for a, t in zip(n.ev["args"], n.ev.get("arg_tys", [])):
                pl = op_place(a)
                if t.startswith("&mut ") and pl is not None and 1 <= pl["l"] <= body.argc and not pl["p"]:
                    self.mut_passed = True

    def defines(self, p, l):
        n = self.b.nodes[p]
        if n.kind == "assign":
            d = n.ev["dst"]
        elif n.kind == "call":
            d = n.ev.get("dest")
        else:
            return False
        if d is None or d["l"] != l:
            return False
        # a store *through* a reference local writes the pointee, not the local
        return not (d["p"] and d["p"][0] == "*")

    def reaching(self, l, defines=None):
        """token of the definition of local l (or of the pseudo-variable keyed l, with its own `defines`) that reaches the
        entry of every node: ('entry',) | ('def', p) | ('phi', M)"""
        r = self._reach_tok.get(l)
        if r is not None:
            return r
        b = self.b
        if defines is None:
            defines = lambda n_: self.defines(n_, l)
        TOP = None
        tin = {}
        tout = {}
        order = list(range(len(b.nodes)))
        work = [b.entry]
        tin[b.entry] = ("entry",)
        inq = {b.entry}
        while work:
            n = work.pop()
            inq.discard(n)
            ti = tin.get(n, TOP)
            to = ("def", n) if defines(n) else ti
            if tout.get(n, "?") == to and n in tout:
                continue
            tout[n] = to
            for (sx, _lab) in b.nodes[n].succ:
                ps = b.nodes[sx].pred
                if len(ps) == 1:
                    nt = to
                else:
                    if tin.get(sx) == ("phi", sx):
                        nt = ("phi", sx)
                    else:
                        vals = {tout[p] for (p, _l) in ps if p in tout and tout[p] is not TOP}
                        vals.discard(("phi", sx))
                        nt = next(iter(vals)) if len(vals) == 1 else (("phi", sx) if vals else TOP)
                if tin.get(sx, "?") != nt or sx not in tin:
                    tin[sx] = nt
                    if sx not in inq:
                        inq.add(sx)
                        work.append(sx)
        self._reach_tok[l] = (tin, tout)
        return tin, tout

    def mut_calls_of(self, root):
        """call nodes that receive a `&mut` reference derived from argument `root` (they may rewrite any of its fields)"""
        r = self._mut_calls.get(root)
        if r is None:
            r = set()
            for n in self.b.calls():
                for a, t in zip(n.ev["args"], n.ev.get("arg_tys", [])):
                    if not t.startswith("&mut "):
                        continue
                    pl = op_place(a)
                    if pl is None:
                        continue
                    if pl["l"] == root and not [x for x in pl["p"] if x != "*"]:
                        r.add(n.id)
                        continue
                    if pl["p"]:
                        continue
                    ds = self.b.defs.get(pl["l"], [])
                    if len(ds) == 1:
                        dn = self.b.nodes[ds[0]]
                        if dn.kind == "assign" and dn.ev.get("rv") in ("ref", "rawptr", "use"):
                            src = dn.ev.get("pl") or op_place(dn.ev.get("a"))
                            if src and src["l"] == root and not [x for x in src["p"] if x != "*"]:
                                r.add(n.id)
            self._mut_calls[root] = r
        return r

    def field_store(self, p, root, fname):
        """node p stores to (*root).fname : returns 'full' / 'partial' / None"""
        n = self.b.nodes[p]
        d = None
        if n.kind == "assign":
            d = n.ev["dst"]
        elif n.kind == "call":
            d = n.ev.get("dest")
        if not d or d["l"] != root:
            return None
        pr = [x for x in d["p"] if x != "*"]
        if pr and isinstance(pr[0], dict) and "f" in pr[0] and pr[0].get("n", str(pr[0]["f"])) == fname:
            return "full" if len(pr) == 1 else "partial"
        return None

    def field_token(self, root, fname, n):
        key = ("fld", root, fname)
        mc = self.mut_calls_of(root)
        tin, tout = self.reaching(key, lambda p: p in mc or self.field_store(p, root, fname) is not None)
        return tin.get(n)

    def field_template(self, root, fname):
        """a projection element `{f, n, adt, ty}` with which this body reads / writes (*root).fname, if any"""
        k = (root, fname)
        if k in self._ftpl:
            return self._ftpl[k]
        found = None
        def scan_place(pl):
            nonlocal found
            if found is None and pl and pl.get("l") == root:
                pr = [x for x in pl["p"] if x != "*"]
                if pr and isinstance(pr[0], dict) and "f" in pr[0] and pr[0].get("n", str(pr[0]["f"])) == fname:
                    found = pr[0]
        for n in self.b.nodes:
            ev = n.ev
            for key in ("dst", "dest", "pl"):
                if isinstance(ev.get(key), dict):
                    scan_place(ev[key])
            for key in ("a", "b", "discr", "cond"):
                if isinstance(ev.get(key), dict):
                    scan_place(op_place(ev[key]))
            for a in ev.get("args", []) or []:
                scan_place(op_place(a))
            for a in ev.get("ops", []) or []:
                scan_place(op_place(a))
            if found is not None:
                break
        self._ftpl[k] = found
        return found

    def field_value_at(self, root, fname, n):
        """value of (*root).fname on entry to node n"""
        t = self.field_template(root, fname)
        if t is None:
            # never mentioned in this body: only `&mut` calls can have changed it
            b = self.b
            base = E("arg", ty=b.local_ty(root), extra=(root, b.local_name(root)))
            tok = self.field_token(root, fname, n) if self.mut_calls_of(root) else ("entry",)
            ver = None if (tok is None or tok[0] == "entry") else (("at", tok[1]) if tok[0] == "def" else tok)
            return E("field", [base], ty=None, extra=(None, fname, ver))
        return self.place({"l": root, "p": ["*", t]}, n)

    def field_after_call(self, root, fname, call_nid):
        """the opaque value of (*root).fname right after the `&mut` call at call_nid"""
        t = self.field_template(root, fname)
        b = self.b
        if t is None:
            base = E("arg", ty=b.local_ty(root), extra=(root, b.local_name(root)))
            return E("field", [base], ty=None, extra=(None, fname, ("at", call_nid)))
        base = E("arg", ty=b.local_ty(root), extra=(root, b.local_name(root)))
        return E("field", [base], ty=t.get("ty"), extra=(t.get("adt") or t.get("closure") or ("tuple" if t.get("tuple") else None), fname, ("at", call_nid)))

    def tok_value(self, l, tok, at):
        b = self.b
        if tok is None:
            return E("undef", ty=b.local_ty(l), extra=(l, at))
        if tok[0] == "entry":
            if 1 <= l <= b.argc:
                return E("arg", ty=b.local_ty(l), extra=(l, b.local_name(l)))
            return E("undef", ty=b.local_ty(l), extra=(l,))
        if tok[0] == "def":
            return self.defval(tok[1], l)
        m = tok[1]
        phi = E("phi", ty=b.local_ty(l), extra=(l, m))
        if phi.key() not in self._phi_pending and phi.key() not in self._phis:
            self._phi_pending[phi.key()] = (l, m)
        return phi

    def phi(self, key):
        """(merge node, incoming values, predecessor edges) of a phi value; incoming values are built on demand"""
        if key in self._phis:
            return self._phis[key]
        pend = self._phi_pending.pop(key, None)
        if pend is None:
            return None
        l, m = pend
        b = self.b
        self._phis[key] = None
        tin, tout = self.reaching(l)
        ps = b.nodes[m].pred
        ops = [self.tok_value(l, tout.get(p), p) for (p, _l) in ps]
        self._phis[key] = (m, ops, ps)
        return self._phis[key]

    def read(self, l, n):
        """value of local l on entry to node n"""
        b = self.b
        if l in self.mem:
            return E("mem", ty=b.local_ty(l), extra=(l, n))
        ds = b.defs.get(l, [])
        pd = [p for p in b.pdefs.get(l, []) if self.defines(p, l)]
        if len(ds) == 1 and not pd and not (1 <= l <= b.argc):
            return self.defval(ds[0], l)
        if not ds and not pd:
            if 1 <= l <= b.argc:
                return E("arg", ty=b.local_ty(l), extra=(l, b.local_name(l)))
            return E("undef", ty=b.local_ty(l), extra=(l,))
        tin, tout = self.reaching(l)
        return self.tok_value(l, tin.get(n), n)

    def defval(self, p, l):
        n = self.b.nodes[p]
        d = n.ev["dst"] if n.kind == "assign" else n.ev.get("dest")
        if d["p"]:
            return E("unknown", nid=p, extra=("pstore", l, p))
        return self.nodeval(p)

    def nodeval(self, p):
        if p in self.nv:
            return self.nv[p]
        b = self.b
        n = b.nodes[p]
        ev = n.ev
        self.nv[p] = E("unknown", nid=p, extra=("cycle", p))
        if n.kind == "call":
            args = [self.operand(a, p) for a in ev["args"]]
            v = E("call", args, ty=ev.get("dest_ty"), nid=p, extra=callee_name(ev))
        elif n.kind == "assign":
            rv = ev["rv"]
            ty = b.local_ty(ev["dst"]["l"]) if not ev["dst"]["p"] else None
            if rv == "use":
                v = self.operand(ev["a"], p)
            elif rv in ("ref", "rawptr"):
                v = self.place(ev["pl"], p)
            elif rv == "bin":
                v = E("bin", [self.operand(ev["a"], p), self.operand(ev["b"], p)], ty=ty, nid=p, extra=ev["op"])
            elif rv == "un":
                v = E("un", [self.operand(ev["a"], p)], ty=ty, nid=p, extra=ev["op"])
            elif rv == "discr":
                v = E("discr", [self.place(ev["pl"], p)], ty=ty, nid=p)
            elif rv == "cast":
                inner = self.operand(ev["a"], p)
                if "PointerCoercion" in ev["kind"] or "Transmute" in ev["kind"]:
                    v = inner
                else:
                    v = E("cast", [inner], ty=ev["ty"], nid=p, extra=ev["ty"])
            elif rv == "agg":
                nm = ev.get("adt") or ev.get("def") or ev.get("agg")
                if ev.get("var") and ev.get("agg") == "adt":
                    nm = nm + "::" + ev["var"]
                v = E("agg", [self.operand(o, p) for o in ev["ops"]], ty=ty, nid=p, extra=nm)
            elif rv == "repeat":
                v = E("repeat", [self.operand(ev["a"], p)], ty=ty, nid=p)
            else:
                v = E("unknown", nid=p, extra=("rv", rv, p))
        else:
            v = E("unknown", nid=p, extra=("node", p))
        self.nv[p] = v
        return v

    def operand(self, op, n):
        if op is None:
            return E("unknown", extra=("noop", n))
        if op["k"] == "const":
            return E("const", ty=op.get("ty"), extra=op)
        pl = op_place(op)
        if pl is None:
            return E("unknown", extra=("op", n))
        return self.place(pl, n)

    def place(self, pl, n):
        e = self.read(pl["l"], n)
        for p in pl["p"]:
            if p == "*":
                continue
            if isinstance(p, dict):
                if "f" in p:
                    if e.k == "bin" and str(e.extra).endswith("WithOverflow"):
                        if p["f"] == 0:
                            e = E("bin", e.a, ty=p.get("ty"), nid=e.nid, extra=e.extra[:-len("WithOverflow")])
                        else:
                            e = E("overflow_flag", [e], ty="bool")
                        continue
                    if e.k == "agg" and p["f"] < len(e.a):
                        e = e.a[p["f"]]
                        continue
                    fname = p.get("n", str(p["f"]))
                    if e.k == "arg" and (fname in self.stored_fields or self.mut_passed or self.mut_calls_of(e.extra[0])):
                        # a field of the struct an argument points to: version it by the store / `&mut` call that reaches here
                        root = e.extra[0]
                        tok = self.field_token(root, fname, n)
                        if tok is not None and tok[0] == "entry":
                            ver = None
                        elif tok is not None and tok[0] == "def":
                            if self.field_store(tok[1], root, fname) == "full" and self.b.nodes[tok[1]].kind == "assign":
                                e = self.nodeval(tok[1])
                                continue
                            ver = ("at", tok[1])
                        elif tok is not None:
                            ver = tok
                        else:
                            ver = n
                        e = E("field", [e], ty=p.get("ty"), extra=(p.get("adt") or p.get("closure") or ("tuple" if p.get("tuple") else None), fname, ver))
                        continue
                    stable = not (fname in self.stored_fields or self.mut_passed) or e.k in ("call", "downcast", "field") and fname.isdigit()
                    ver = None if stable else n
                    e = E("field", [e], ty=p.get("ty"), extra=(p.get("adt") or p.get("closure") or ("tuple" if p.get("tuple") else None), fname, ver))
                elif "dc" in p:
                    e = E("downcast", [e], ty=e.ty, extra=p["dc"])
                elif "idx" in p:
                    e = E("index", [e, self.read(p["idx"], n)], ty=p.get("ty"), extra=("at", n))
                elif "cidx" in p:
                    e = E("index", [e, E("const", extra={"val": p["cidx"]})], ty=p.get("ty"), extra=("at", n))
                else:
                    e = E("proj", [e], extra=(str(p), n))
            else:
                e = E("proj", [e], extra=(str(p), n))
        return e


def flow(body):
    f = getattr(body, "_flow", None)
    if f is None:
        f = Flow(body)
        body._flow = f
    return f


# ------------------------------------------------------------------------------------------------------------------------
# linear terms and integer Fourier-Motzkin

class Lin:
    __slots__ = ("t", "c")

    def __init__(self, t=None, c=0):
        self.t = {k: v for k, v in (t or {}).items() if v != 0}
        self.c = c

    def __add__(self, o):
        t = dict(self.t)
        for k, v in o.t.items():
            t[k] = t.get(k, 0) + v
        return Lin(t, self.c + o.c)

    def __sub__(self, o):
        return self + o.scale(-1)

    def scale(self, k):
        return Lin({a: v * k for a, v in self.t.items()}, self.c * k)

    def is_const(self):
        return not self.t

    def atoms(self):
        return set(self.t)

    def show(self, names=None):
        parts = []
        for a, v in sorted(self.t.items(), key=lambda kv: repr(kv[0])):
            nm = names.get(a, repr(a)) if names else repr(a)
            parts.append(("%+d*" % v if v not in (1, -1) else ("+" if v == 1 else "-")) + nm)
        if self.c or not parts:
            parts.append("%+d" % self.c)
        return " ".join(parts)


def const(c):
    return Lin({}, c)


def atom(a):
    return Lin({a: 1}, 0)


def _norm(t, c):
    """normalise Σ t·a + c >= 0 over the integers"""
    if not t:
        return t, c
    g = 0
    for v in t.values():
        g = math.gcd(g, abs(v))
    if g > 1:
        t = {a: v // g for a, v in t.items()}
        c = c // g  # floor
    return t, c


def propagate(cons, rounds=12):
    """integer interval propagation. Returns (conflict, lo, hi)."""
    lo, hi = {}, {}
    items = [(dict(l.t), l.c) for l in cons if l.t]
    for _ in range(rounds):
        changed = False
        for t, c in items:
            for j, tj in t.items():
                # tj*aj >= -c - sum_{i != j} ti*ai ; use the largest possible value of the other terms
                s = -c
                ok = True
                for i, ti in t.items():
                    if i == j:
                        continue
                    b = hi.get(i) if ti > 0 else lo.get(i)
                    if b is None:
                        ok = False
                        break
                    s -= ti * b
                if not ok:
                    continue
                if tj > 0:
                    nb = -((-s) // tj)          # ceil(s / tj)
                    if lo.get(j) is None or nb > lo[j]:
                        lo[j] = nb
                        changed = True
                else:
                    nb = s // tj if False else (-s) // (-tj)   # aj <= floor((-s)/(-tj))
                    if hi.get(j) is None or nb < hi[j]:
                        hi[j] = nb
                        changed = True
                if lo.get(j) is not None and hi.get(j) is not None and lo[j] > hi[j]:
                    return True, lo, hi
        if not changed:
            break
    return False, lo, hi


def fm_unsat(cons, limit=4000):
    """cons: list of Lin meaning lin >= 0. True if no integer solution is possible (sound: True only if really unsat)."""
    for l in cons:
        if not l.t and l.c < 0:
            return True
    conflict, lo, hi = propagate(cons)
    if conflict:
        return True
    cons = list(cons) + [Lin({a: 1}, -v) for a, v in lo.items()] + [Lin({a: -1}, v) for a, v in hi.items()]
    cur = []
    seen = set()
    for l in cons:
        t, c = _norm(dict(l.t), l.c)
        if not t:
            if c < 0:
                return True
            continue
        k = (tuple(sorted(t.items(), key=repr)), c)
        if k not in seen:
            seen.add(k)
            cur.append((t, c))
    while True:
        atoms = defaultdict(lambda: [0, 0])
        for t, c in cur:
            for a, v in t.items():
                atoms[a][0 if v > 0 else 1] += 1
        if not atoms:
            return False
        # atoms bounded on one side only can be dropped together with their constraints
        one_sided = [a for a, (p, q) in atoms.items() if p == 0 or q == 0]
        if one_sided:
            s = set(one_sided)
            cur = [(t, c) for (t, c) in cur if not (s & set(t))]
            continue
        a = min(atoms, key=lambda x: atoms[x][0] * atoms[x][1])
        pos = [(t, c) for (t, c) in cur if t.get(a, 0) > 0]
        neg = [(t, c) for (t, c) in cur if t.get(a, 0) < 0]
        rest = [(t, c) for (t, c) in cur if a not in t]
        if len(pos) * len(neg) + len(rest) > limit:
            return False
        seen = set()
        new = []
        for (t, c) in rest:
            k = (tuple(sorted(t.items(), key=repr)), c)
            if k not in seen:
                seen.add(k)
                new.append((t, c))
        for (tp, cp) in pos:
            for (tn, cn) in neg:
                kp, kn = tp[a], -tn[a]
                l = kp * kn // math.gcd(kp, kn)
                mp, mn = l // kp, l // kn
                t = {}
                for x, v in tp.items():
                    if x != a:
                        t[x] = t.get(x, 0) + v * mp
                for x, v in tn.items():
                    if x != a:
                        t[x] = t.get(x, 0) + v * mn
                t = {x: v for x, v in t.items() if v != 0}
                c = cp * mp + cn * mn
                t, c = _norm(t, c)
                if not t:
                    if c < 0:
                        return True
                    continue
                k = (tuple(sorted(t.items(), key=repr)), c)
                if k not in seen:
                    seen.add(k)
                    new.append((t, c))
        # drop constraints dominated by an identical left-hand side with a smaller constant
        best = {}
        for (t, c) in new:
            k = tuple(sorted(t.items(), key=repr))
            if k not in best or c < best[k][1]:
                best[k] = (t, c)
        cur = list(best.values())


def fm_bound(cons, term, upper=True):
    """best constant bound of `term` implied by cons (None if unbounded)"""
    z = ("$z",)
    eq = term - atom(z)
    cs = list(cons) + [eq, eq.scale(-1)]
    # binary search on the bound using unsat queries would be costly; eliminate instead
    cur = [(dict(l.t), l.c) for l in cs]
    others = set()
    for t, c in cur:
        others |= set(t)
    others.discard(z)
    for a in list(others):
        pos = [(t, c) for (t, c) in cur if t.get(a, 0) > 0]
        neg = [(t, c) for (t, c) in cur if t.get(a, 0) < 0]
        rest = [(t, c) for (t, c) in cur if a not in t]
        if len(pos) * len(neg) > 3000:
            return None
        for (tp, cp) in pos:
            for (tn, cn) in neg:
                kp, kn = tp[a], -tn[a]
                l = kp * kn // math.gcd(kp, kn)
                mp, mn = l // kp, l // kn
                t = {}
                for x, v in tp.items():
                    if x != a:
                        t[x] = t.get(x, 0) + v * mp
                for x, v in tn.items():
                    if x != a:
                        t[x] = t.get(x, 0) + v * mn
                t = {x: v for x, v in t.items() if v != 0}
                t, c = _norm(t, cp * mp + cn * mn)
                rest.append((t, c))
        best = {}
        for (t, c) in rest:
            k = tuple(sorted(t.items(), key=repr))
            if k not in best or c < best[k][1]:
                best[k] = (t, c)
        cur = list(best.values())
    out = None
    for t, c in cur:
        v = t.get(z, 0)
        if set(t) - {z}:
            continue
        if upper and v < 0:      # -k z + c >= 0  => z <= c/k
            bnd = c // (-v)
            out = bnd if out is None else min(out, bnd)
        if not upper and v > 0:  # k z + c >= 0 => z >= -c/k
            bnd = -(c // v)
            out = bnd if out is None else max(out, bnd)
    return out


# ------------------------------------------------------------------------------------------------------------------------
# expressions -> linear terms, with semantic facts for the atoms introduced

def int_ty(ty):
    return ty in UMAX


def _const_val(e):
    if e.k == "const":
        v = (e.extra or {}).get("val")
        if isinstance(v, bool):
            return int(v)
        if isinstance(v, int):
            return v
    return None


def strip(e):
    """the slice / collection an expression is a view of"""
    for _ in range(30):
        if e.k == "call" and e.a and any(path_matches(e.extra, w) for w in WRAPPERS):
            e = e.a[0]
            continue
        if e.k == "cast" and e.a:
            e = e.a[0]
            continue
        break
    return e


ARRAY_RE = re.compile(r"^&?(?:mut )?\[[^;\]]+; (\d+)\]$")
ARRAY_CONST_RE = re.compile(r"^&?(?:mut )?\[[^;\]]+; ([A-Za-z_:0-9]+)\]$")


class Ctx:
    """one analysis context = one function body (plus inlined summaries)"""

    def __init__(self, prog, body, engine):
        self.prog = prog
        self.b = body
        self.f = flow(body)
        self.engine = engine
        self.atom_e = {}        # atom key -> E
        self.atom_facts = {}    # atom key -> [Lin >= 0]
        self.names = {}
        self._len_stable = {}
        self._filter_done = set()
        self.lazy = {}          # phi atoms whose interval facts are still to be computed

    # ---- atoms
    def mk(self, key, e=None, facts=()):
        if key not in self.atom_e:
            self.atom_e[key] = e
            self.atom_facts[key] = list(facts)
            self.names[key] = (e.show()[:60] if e is not None else repr(key))
        return atom(key)

    def ty_facts(self, a, ty):
        if ty in UMAX:
            return [a, const(UMAX[ty]) - a]
        return []

    def len_of(self, base):
        """Lin for the length of a slice-like expression"""
        base = strip(base)
        ty = base.ty or ""
        m = ARRAY_RE.match(ty)
        if m:
            return const(int(m.group(1)))
        if base.k == "agg" and (base.extra in ("array", "Array") or str(base.extra).lower().startswith("array")):
            return const(len(base.a))
        if base.k == "repeat":
            m = re.search(r"; (\d+)\]", ty or "")
            if m:
                return const(int(m.group(1)))
        if base.k == "const":
            m = re.search(r"\[u8; (\d+)\]", (base.extra or {}).get("ty", "") or ty or "")
            if m:
                return const(int(m.group(1)))
        if base.k == "call":
            nm = base.extra
            if nm.endswith("::index") or nm.endswith("::index_mut"):
                if len(base.a) == 2:
                    src, rg = base.a
                    r = self.range_of(rg)
                    if r is not None:
                        kind, lo, hi = r
                        if kind == "Range":
                            return self.L(hi) - self.L(lo)
                        if kind == "RangeTo":
                            return self.L(hi)
                        if kind == "RangeFrom":
                            return self.len_of(src) - self.L(lo)
                        if kind == "RangeFull":
                            return self.len_of(src)
            if path_matches(nm, "vec::from_elem") and len(base.a) == 2:
                return self.L(base.a[1])
            if (path_matches(nm, "Vec::new") or path_matches(nm, "Vec::with_capacity") or path_matches(nm, "Bytes::new")) and "Vec" in (base.ty or "Vec"):
                return const(0)
            if path_matches(nm, "slice::to_vec") or path_matches(nm, "Vec::from") or path_matches(nm, "Bytes::copy_from_slice"):
                return self.len_of(base.a[0])
            m = re.search(r"\[u8; (\d+)\]", base.ty or "")
            if m and not (base.ty or "").startswith("std::result") and not (base.ty or "").startswith("std::option"):
                return const(int(m.group(1)))
            s = self.engine.len_summary(self, base)
            if s is not None:
                return s
        # payload of a call with a declared length postcondition: (call(..)? ) / (.. as Ok).0
        x = base
        for _ in range(8):
            if x.k in ("field", "downcast") and x.a:
                x = x.a[0]
            elif x.k == "call" and x.a and any(path_matches(x.extra, w) for w in ("Try::branch", "Result::map_err", "Option::ok_or", "Option::ok_or_else")):
                x = x.a[0]
            else:
                break
        if x is not base and x.k == "call":
            for pat, ens in self.engine.ensures.items():
                if path_matches(x.extra, pat):
                    for (what, argidx, factor) in ens:
                        if what == "ok_len_mul" and argidx - 1 < len(x.a):
                            return self.L(x.a[argidx - 1]).scale(factor)
        # element of chunks_exact / windows
        it = self.iter_source(base)
        if it is not None:
            kind, src, k = it
            if kind in ("chunks_exact", "windows"):
                return self.L(k)
        if base.k == "mem":
            init = self.stable_len_init(base.extra[0])
            if init is not None:
                return self.len_of(init)
            base = E("mem", ty=base.ty, extra=(base.extra[0], None)) if self.len_stable(base.extra[0]) else base
        key = ("len", base.key())
        a = self.mk(key, E("call", [base], ty="usize", extra="len"), ())
        if not self.atom_facts[key]:
            self.atom_facts[key] = [a, const(ISIZE_MAX) - a]
        return a

    LEN_PRESERVING = ("DerefMut::deref_mut", "IndexMut::index_mut", "Vec::as_mut_slice", "Vec::as_mut_ptr", "AsMut::as_mut", "slice::sort",
                      "AlignedBuffer::as_mut_slice", "Deref::deref", "Index::index", "BorrowMut::borrow_mut")

    def len_stable(self, l):
        """the length of collection local l cannot change: every mutable borrow of it goes to a length-preserving use"""
        c = self._len_stable.get(l)
        if c is not None:
            return c
        b = self.b
        ok = True
        refs = set()
        for n in b.nodes:
            if n.kind == "assign" and n.ev.get("rv") in ("ref", "rawptr") and n.ev["pl"]["l"] == l and (n.ev.get("mut") or n.ev.get("rv") == "rawptr"):
                if n.ev["dst"]["p"]:
                    ok = False
                refs.add(n.ev["dst"]["l"])
        for n in b.nodes:
            if n.kind == "call":
                for a, t in zip(n.ev["args"], n.ev.get("arg_tys", [])):
                    pl = op_place(a)
                    if pl is not None and pl["l"] in refs and not pl["p"]:
                        nm = callee_name(n.ev)
                        if t.startswith("&mut [") or any(path_matches(nm, x) for x in self.LEN_PRESERVING):
                            continue
                        ok = False
            elif n.kind == "assign" and n.ev.get("rv") in ("use", "cast"):
                pl = op_place(n.ev["a"])
                if pl is not None and pl["l"] in refs and not pl["p"]:
                    ok = False   # the reference is copied somewhere we do not follow
        if len(b.defs.get(l, [])) != 1 or b.pdefs.get(l):
            ok = False
        self._len_stable[l] = ok
        return ok

    def stable_len_init(self, l):
        if not self.len_stable(l):
            return None
        v = self.f.nodeval(self.b.defs[l][0])
        if v.k == "mem":
            return None
        return v

    def range_of(self, rg):
        rg = strip(rg)
        if rg.k == "agg":
            nm = str(rg.extra).split("::")[-1]
            if nm == "Range" and len(rg.a) == 2:
                return ("Range", rg.a[0], rg.a[1])
            if nm == "RangeTo" and len(rg.a) == 1:
                return ("RangeTo", None, rg.a[0])
            if nm == "RangeFrom" and len(rg.a) == 1:
                return ("RangeFrom", rg.a[0], None)
            if nm == "RangeFull":
                return ("RangeFull", None, None)
        if rg.k == "const" and "RangeFull" in ((rg.extra or {}).get("ty") or ""):
            return ("RangeFull", None, None)
        return None

    def iter_source(self, e):
        """e = payload of `next(&mut iter)`: describe the iterator's source.
        returns (kind, source expr, parameter) with kind in range|chunks_exact|windows|enumerate:<kind>"""
        x = e
        sel = []
        for _ in range(6):
            if x.k == "field" and x.a:
                sel.append(x.extra[1])
                x = x.a[0]
                continue
            if x.k == "downcast" and x.a:
                x = x.a[0]
                continue
            break
        if not (x.k == "call" and path_matches(x.extra, "Iterator::next") and x.a):
            return None
        it = x.a[0]
        if it.k != "mem":
            return None
        l = it.extra[0]
        ds = self.b.defs.get(l, [])
        if len(ds) != 1:
            return None
        src = self.f.nodeval(ds[0])
        return self.describe_iter(src, list(reversed(sel)))

    def describe_iter(self, src, sel):
        # sel: field path below the Some payload ("0" first)
        for _ in range(8):
            if src.k == "call" and src.a and any(path_matches(src.extra, w) for w in ("IntoIterator::into_iter", "Iterator::by_ref")):
                src = src.a[0]
                continue
            if src.k == "mem":
                ds = self.b.defs.get(src.extra[0], [])
                if len(ds) == 1 and not self.b.pdefs.get(src.extra[0]):
                    src = self.f.nodeval(ds[0])
                    continue
            break
        if src.k == "agg" and str(src.extra).split("::")[-1] == "Range" and len(src.a) == 2 and sel == ["0"]:
            return ("range", src, None)
        if src.k == "call":
            if path_matches(src.extra, "slice::chunks_exact") and sel == ["0"]:
                return ("chunks_exact", src.a[0], src.a[1])
            if path_matches(src.extra, "slice::windows") and sel == ["0"]:
                return ("windows", src.a[0], src.a[1])
            if (path_matches(src.extra, "slice::iter") or path_matches(src.extra, "slice::iter_mut")) and sel == ["0"]:
                return ("slice_iter", src.a[0], None)
            if path_matches(src.extra, "Iterator::enumerate") and len(sel) == 2 and sel[0] == "0":
                inner = self.describe_iter(src.a[0], ["0"])
                if inner is None:
                    return None
                if sel[1] == "1":
                    return inner
                if sel[1] == "0":
                    return ("enum_index",) + inner
        return None

    # ---- E -> Lin
    def L(self, e):
        k = e.k
        v = _const_val(e)
        if v is not None:
            return const(v)
        if k == "const":
            cv = self.engine.const_value(self.prog, e)
            if cv is not None:
                return const(cv)
        if k == "atomref":
            return atom(e.extra)
        if k == "bin":
            op = e.extra
            a, b = e.a
            if op in ("Add", "AddUnchecked"):
                return self.L(a) + self.L(b)
            if op in ("Sub", "SubUnchecked"):
                return self.L(a) - self.L(b)
            if op in ("Mul", "MulUnchecked"):
                la, lb = self.L(a), self.L(b)
                if la.is_const():
                    return lb.scale(la.c)
                if lb.is_const():
                    return la.scale(lb.c)
                return self.opaque(e)
            if op in ("Div", "Rem", "BitAnd", "Shr", "Shl"):
                la, lb = self.L(a), self.L(b)
                key = e.key()
                if key in self.atom_e:
                    return atom(key)
                r = self.mk(key, e)
                facts = self.ty_facts(r, e.ty) or [r]
                if lb.is_const() and lb.c > 0:
                    kk = lb.c
                    if op == "Div":
                        facts += [la - r.scale(kk), r.scale(kk) + const(kk - 1) - la]
                    elif op == "Rem":
                        facts += [const(kk - 1) - r, la - r]
                    elif op == "BitAnd":
                        facts += [const(kk) - r, la - r]
                    elif op == "Shr" and kk < 64:
                        facts += [la - r.scale(2 ** kk), r.scale(2 ** kk) + const(2 ** kk - 1) - la]
                elif op == "BitAnd" and la.is_const():
                    facts += [const(la.c) - r, lb - r]
                elif op == "Rem":
                    facts += [lb - r - const(1), la - r]
                elif op == "Div":
                    facts += [la - r]
                self.atom_facts[key] = facts
                return r
            return self.opaque(e)
        if k == "cast":
            inner = e.a[0]
            st, dt = inner.ty, e.ty
            if st in UMAX and dt in UMAX and UMAX[st] <= UMAX[dt]:
                return self.L(inner)
            cv = _const_val(inner)
            if cv is not None and dt in UMAX and 0 <= cv <= UMAX[dt]:
                return const(cv)
            key = e.key()
            if key in self.atom_e:
                return atom(key)
            r = self.mk(key, e)
            facts = self.ty_facts(r, dt) or []
            if st in UMAX and dt in UMAX:
                facts.append(self.L(inner) - r)   # truncation never increases an unsigned value
                # ... and is the identity when the source already fits
                self.engine.note_trunc(self, key, inner, dt)
            self.atom_facts[key] = facts
            return r
        if k == "un" and e.extra == "PtrMetadata":
            return self.len_of(e.a[0])
        if k == "call":
            return self.L_call(e)
        if k == "field":
            return self.L_field(e)
        return self.opaque(e)

    def opaque(self, e):
        key = e.key()
        if key in self.atom_e:
            return atom(key)
        r = self.mk(key, e)
        facts = self.ty_facts(r, e.ty)
        self.atom_facts[key] = facts
        if e.k == "phi":
            self.lazy[key] = e
        if e.k == "arg":
            self.atom_facts[key] = facts + self.engine.arg_facts(self, e)
        return r

    def L_call(self, e):
        nm = e.extra
        a = e.a
        def m(*names):
            return any(path_matches(nm, x) for x in names)
        if m("slice::len", "Vec::len", "Bytes::len", "AlignedBuffer::len", "BytesMut::len", "str::len", "VecDeque::len") and a:
            return self.len_of(a[0])
        if m("From::from", "Into::into") and a and a[0].ty in UMAX and (e.ty in UMAX) and UMAX[a[0].ty] <= UMAX[e.ty]:
            return self.L(a[0])
        key = e.key()
        if key in self.atom_e:
            return atom(key)
        inl = self.engine.inline(self, e)
        if inl is not None:
            return inl
        r = self.mk(key, e)
        facts = self.ty_facts(r, e.ty)
        if len(a) == 2 and (e.ty in UMAX):
            x, y = self.L(a[0]), self.L(a[1])
            if m("Ord::min", "cmp::min", "usize::min", "u64::min"):
                facts += [x - r, y - r]
                self.engine.note_minmax(self, key, "min", x, y)
            elif m("Ord::max", "cmp::max", "usize::max", "u64::max"):
                facts += [r - x, r - y]
            elif m("saturating_sub"):
                facts += [x - r, r - x + y]
            elif m("saturating_add"):
                facts += [r - x, r - y, x + y - r]
            elif m("wrapping_sub", "wrapping_add", "wrapping_mul"):
                pass
            elif m("div_ceil") and y.is_const() and y.c > 0:
                facts += [r.scale(y.c) - x, x + const(y.c - 1) - r.scale(y.c)]
            elif m("next_multiple_of") and y.is_const() and y.c > 0:
                facts += [r - x, x + const(y.c - 1) - r]
            elif m("abs_diff"):
                pass
        self.atom_facts[key] = facts
        return r

    def L_field(self, e):
        # payload of Option/Result producing calls
        base = e.a[0]
        fname = e.extra[1]
        if base.k == "downcast" and base.a:
            var = base.extra
            src = base.a[0]
            pay = self.payload(src, var, fname)
            if pay is not None:
                return pay
        key = e.key()
        if key in self.atom_e:
            return atom(key)
        r = self.mk(key, e)
        facts = self.ty_facts(r, e.ty)
        it = self.iter_source(e)
        if it is not None:
            if it[0] == "range":
                lo, hi = it[1].a
                facts += [r - self.L(lo), self.L(hi) - r - const(1)]
            elif it[0] == "enum_index":
                kind, src, kk = it[1], it[2], it[3]
                if kind == "slice_iter":
                    facts += [self.len_of(src) - r - const(1)]
                if kind == "chunks_exact":
                    lk = self.L(kk)
                    if lk.is_const() and lk.c > 0:
                        # index < len(src) / k   <=>   (index + 1) * k <= len(src)
                        facts += [self.len_of(src) - (r + const(1)).scale(lk.c)]
        self.atom_facts[key] = facts
        return r

    def payload(self, src, var, fname):
        """Lin of field `fname` of variant `var` of an Option/Result valued expression, when known"""
        filters = []
        for _ in range(12):
            if src.k != "call" or not src.a:
                return None
            nm = src.extra
            def m(*names):
                return any(path_matches(nm, x) for x in names)
            if m("Try::branch"):
                if var == "Continue" and fname == "0":
                    inner = src.a[0]
                    ity = inner.ty or ""
                    var = "Ok" if ity.startswith("std::result::Result") else "Some"
                    src = inner
                    continue
                return None
            if var in ("Some", "Ok") and fname == "0":
                if m("Option::filter") and len(src.a) == 2:
                    filters.append(src.a[1])
                if m("Option::ok_or", "Option::ok_or_else", "Result::map_err", "Option::filter", "Result::ok", "Option::or_else") and src.a:
                    if m("Option::ok_or", "Option::ok_or_else"):
                        var = "Some"
                    if m("Result::map_err"):
                        var = "Ok"
                    if m("Result::ok"):
                        var = "Ok"
                    src = src.a[0]
                    continue
                if m("checked_add") and len(src.a) == 2:
                    key = ("chk", src.key())
                    if key not in self.atom_e:
                        r = self.mk(key, src)
                        s = self.L(src.a[0]) + self.L(src.a[1])
                        ety = (re.search(r"<(u\d+|usize)>", src.ty or "") or [None, None])[1]
                        self.atom_facts[key] = [r - s, s - r] + (self.ty_facts(r, ety) if ety else [])
                    for fl in filters:
                        self.filter_facts(key, src, fl)
                    return atom(key)
                if m("checked_sub") and len(src.a) == 2:
                    key = ("chk", src.key())
                    if key not in self.atom_e:
                        r = self.mk(key, src)
                        s = self.L(src.a[0]) - self.L(src.a[1])
                        self.atom_facts[key] = [r - s, s - r, r]
                    return atom(key)
                if m("checked_mul") and len(src.a) == 2:
                    la, lb = self.L(src.a[0]), self.L(src.a[1])
                    if la.is_const() or lb.is_const():
                        key = ("chk", src.key())
                        if key not in self.atom_e:
                            r = self.mk(key, src)
                            s = lb.scale(la.c) if la.is_const() else la.scale(lb.c)
                            ety = (re.search(r"<(u\d+|usize)>", src.ty or "") or [None, None])[1]
                            self.atom_facts[key] = [r - s, s - r] + (self.ty_facts(r, ety) if ety else [])
                        return atom(key)
                    return None
                if m("Read::read", "FileExt::read_at") and len(src.a) >= 2:
                    key = ("chk", src.key())
                    if key not in self.atom_e:
                        r = self.mk(key, src)
                        self.atom_facts[key] = [r, self.len_of(src.a[1]) - r]
                    return atom(key)
                if m("TryFrom::try_from", "TryInto::try_into") and src.a and src.a[0].ty in UMAX:
                    ety = (re.search(r"Result<(u\d+|usize),", src.ty or "") or [None, None])[1]
                    key = ("chk", src.key())
                    if key not in self.atom_e:
                        r = self.mk(key, src)
                        s = self.L(src.a[0])
                        self.atom_facts[key] = [r - s, s - r] + (self.ty_facts(r, ety) if ety else [])
                    return atom(key)
            return None
        return None

    def filter_facts(self, key, payload_src, clo):
        """`opt.filter(|v| pred(v))` is Some only if pred holds for the payload: read pred off the closure body"""
        done = self._filter_done
        if (key, clo.key()) in done:
            return
        done.add((key, clo.key()))
        self.atom_facts[key] = self.atom_facts.get(key, []) + self.closure_pred_facts(key, clo)

    def closure_pred_facts(self, key, clo):
        """facts stating that the one-expression predicate closure `clo` holds for the value named by atom `key`"""
        if clo.k != "agg" or clo.extra not in self.prog.bodies:
            return []
        cb = self.prog.bodies[clo.extra]
        rets = cb.return_nodes()
        if len(rets) != 1 or len(cb.nodes) > 80:
            return []
        cf = flow(cb)
        rv = cf.read(0, rets[0])
        pay = E("atomref", ty=None, extra=key)

        def sub(e):
            if e.k == "arg":
                if e.extra[0] == 2:
                    return pay
                return None
            if e.k == "field" and e.a and e.a[0].k == "arg" and e.a[0].extra[0] == 1:
                idx = e.extra[1]
                if str(idx).isdigit() and int(idx) < len(clo.a):
                    return clo.a[int(idx)]
                return None
            if e.k in ("mem", "phi", "undef", "unknown"):
                return None
            a = []
            for x in e.a:
                y = sub(x)
                if y is None:
                    return None
                a.append(y)
            return E(e.k, a, ty=e.ty, nid=(("clo", clo.key()), e.nid) if e.nid is not None else None, extra=e.extra)
        pred = sub(rv)
        if pred is None:
            return []
        return self.engine.cmp_facts(self, pred, True)

    # ---- facts closure
    def facts_for(self, lins):
        """semantic facts of every atom reachable from the given terms"""
        out = []
        seen = set()
        work = []
        for l in lins:
            work += list(l.atoms())
        while work:
            a = work.pop()
            if a in seen:
                continue
            seen.add(a)
            if a in self.lazy:
                self.engine.phi_facts(self, a, self.lazy[a])
            for f in self.atom_facts.get(a, []):
                out.append(f)
                for x in f.atoms():
                    if x not in seen:
                        work.append(x)
        return out


# ------------------------------------------------------------------------------------------------------------------------
# the engine: facts that hold at a program point, obligations, interprocedural contracts

CMP = {"Lt", "Le", "Gt", "Ge", "Eq", "Ne"}


class Engine:
    def __init__(self, prog, contracts=None, inline=None, ensures=None, posts=None):
        self.prog = prog
        self.posts = posts or {}             # fn pattern -> [[(coef, spec) ..., const]]  facts holding whenever the fn returns Ok
        self.invariants = {}                 # type name -> rows over the fields of `self` (argument 1)
        self.contracts = contracts or {}     # fn pattern -> [(kind, arg, rel, value)]
        self.inline_tbl = inline or []       # fn patterns that may be summarised by their return expression
        self.ensures = ensures or {}         # fn pattern -> [("len", rel, value)]
        self.ctxs = {}
        self._edge_dom = {}
        self._node_dom = {}
        self._phi_busy = set()
        self._facts_busy = set()
        self._facts_memo = {}

    def ctx(self, body):
        c = self.ctxs.get(body.path)
        if c is None:
            c = Ctx(self.prog, body, self)
            self.ctxs[body.path] = c
        return c

    # ---- hooks used by Ctx
    def const_value(self, prog, e):
        d = e.extra or {}
        nm = d.get("def")
        if nm and nm in getattr(prog, "consts", {}):
            v = prog.consts[nm].get("val")
            if isinstance(v, int):
                return v
        return None

    def note_trunc(self, ctx, key, inner, dt):
        pass

    def note_minmax(self, ctx, key, kind, x, y):
        pass

    def len_summary(self, ctx, base):
        for pat, ens in self.ensures.items():
            if path_matches(base.extra, pat):
                for item in ens:
                    if item[0] == "len" and item[1] == "eq":
                        return const(item[2])
        # length of the collection a callee returns, expressed over the caller's arguments
        tb = self.prog.bodies.get(base.extra)
        if tb is None or tb.is_test or tb.path == ctx.b.path or len(tb.nodes) > 400:
            return None
        rets = tb.return_nodes()
        if len(rets) != 1:
            return None
        cctx = Ctx(self.prog, tb, self)
        rv = strip(cctx.f.read(0, rets[0]))
        if rv.k == "mem":
            rv = cctx.stable_len_init(rv.extra[0])
            if rv is None:
                return None
            rv = strip(rv)
        if not (rv.k == "call" and path_matches(rv.extra, "vec::from_elem")):
            return None
        mapping = {i: base.a[i - 1] for i in range(1, tb.argc + 1) if i - 1 < len(base.a)}
        sub = self.subst(rv, mapping, ("inl", base.nid, tb.path))
        if sub is None:
            return None
        return ctx.len_of(sub)

    def arg_facts(self, ctx, e):
        return []

    def upvar_facts(self, ctx):
        """facts the parent body knows, at the point where it builds this closure, about the values the closure captures
        by copy or by shared reference (those cannot change while the closure exists)"""
        b = ctx.b
        if not b.is_closure or not b.parent or b.parent not in self.prog.bodies:
            return []
        pb = self.prog.bodies[b.parent]
        pctx = self.ctx(pb)
        sites = [n for n in pb.nodes if n.kind == "assign" and n.ev.get("rv") == "agg" and (n.ev.get("def") == b.path or n.ev.get("adt") == b.path or n.ev.get("agg") == b.path)]
        if len(sites) != 1:
            return []
        site = sites[0]
        pv = pctx.f.nodeval(site.id)
        if pv.k != "agg":
            return []
        ups = b.raw.get("upvars", [])
        envty = b.local_ty(1)
        amap = {}
        for i, cap in enumerate(pv.a):
            # by-mutable-reference captures may change under the closure's feet
            u = ups[i] if i < len(ups) else None
            if u is not None and ("mut" in str(u.get("mode", "")).lower() or "Mut" in str(u.get("kind", ""))):
                continue
            if cap.k == "mem":
                continue
            inner = E("field", [E("arg", ty=envty, extra=(1, b.local_name(1)))], ty=cap.ty, extra=(b.path, str(i), None))
            try:
                pl = pctx.len_of(cap)
                if len(pl.t) == 1 and list(pl.t.values())[0] == 1 and pl.c == 0:
                    amap[list(pl.t)[0]] = ("len", inner)
                if cap.ty in UMAX:
                    pi = pctx.L(cap)
                    if len(pi.t) == 1 and list(pi.t.values())[0] == 1 and pi.c == 0:
                        amap[list(pi.t)[0]] = ("val", inner)
            except Exception:
                continue
        if not amap:
            return []
        out = []
        for f_ in self.facts_at(pctx, site.id):
            if not f_.t or not set(f_.t) <= set(amap):
                continue
            l = const(f_.c)
            for a, k in f_.t.items():
                kind, inner = amap[a]
                l = l + (ctx.len_of(inner) if kind == "len" else ctx.L(inner)).scale(k)
            out.append(l)
        return out

    def contract_facts(self, ctx):
        """assumed facts about the parameters of ctx.b (proved at every call site)"""
        out = []
        b = ctx.b
        if b.is_closure:
            k = ("upv", b.path)
            if k not in self._facts_memo:
                self._facts_memo[k] = []
                self._facts_memo[k] = self.upvar_facts(ctx)
            out += self._facts_memo[k]
        for pat, items in self.contracts.items():
            if not path_matches(b.path, pat):
                continue
            for (what, idx, rel, val) in items:
                argE = E("arg", ty=b.local_ty(idx), extra=(idx, b.local_name(idx)))
                t = ctx.len_of(argE) if what == "len" else ctx.L(argE)
                v = const(val) if isinstance(val, int) else None
                if v is None:
                    continue
                if rel in ("eq", "ge"):
                    out.append(t - v)
                if rel in ("eq", "le"):
                    out.append(v - t)
        return out

    def phi_facts(self, ctx, key, e):
        """interval facts for a merge: bounds of every incoming value under the facts of its incoming edge"""
        if key in self._phi_busy or self._facts_busy:
            return        # retried on the next query (the atom stays lazy)
        ent = ctx.f.phi(e.key())
        if ent is None or e.ty not in UMAX:
            ctx.lazy.pop(key, None)
            return
        node, ops, preds = ent
        self._phi_busy.add(key)
        ctx.lazy.pop(key, None)
        try:
            ubs, lbs = [], []
            for o, (p, lab) in zip(ops, preds):
                if o.key() == e.key():
                    continue
                if any(x.key() == e.key() for x in o.walk()):
                    ubs.append(None)
                    lbs.append(None)
                    continue
                lo = ctx.L(o)
                facts = self.facts_at_edge(ctx, p, lab) + ctx.facts_for([lo])
                facts += ctx.facts_for(facts)
                ubs.append(fm_bound(facts, lo, True) if not lo.is_const() else lo.c)
                lbs.append(fm_bound(facts, lo, False) if not lo.is_const() else lo.c)
            r = atom(key)
            fs = ctx.atom_facts[key]
            if ubs and None not in ubs:
                fs.append(const(max(ubs)) - r)
            if lbs and None not in lbs:
                fs.append(r - const(min(lbs)))
        finally:
            self._phi_busy.discard(key)

    def inline(self, ctx, e):
        """return value of a small pure callee as a term over the caller's argument values"""
        targets = self.inline_targets(e)
        if not targets:
            return None
        outs = []
        for tb in targets:
            rets = tb.return_nodes()
            if len(rets) != 1:
                return None
            cctx = Ctx(self.prog, tb, self)
            rv = cctx.f.read(0, rets[0])
            mapping = {}
            for i in range(1, tb.argc + 1):
                if i - 1 < len(e.a):
                    mapping[i] = e.a[i - 1]
            sub = self.subst(rv, mapping, ("inl", e.nid, tb.path))
            if sub is None:
                return None
            outs.append(ctx.L(sub))
        if len(outs) == 1:
            return outs[0]
        # several implementations (trait object): usable when they differ by constants only
        base = outs[0]
        deltas = []
        for o in outs:
            d = o - base
            if not d.is_const():
                return None
            deltas.append(d.c)
        key = e.key()
        r = ctx.mk(key, e)
        ctx.atom_facts[key] = ctx.ty_facts(r, e.ty) + [r - base - const(min(deltas)), base + const(max(deltas)) - r]
        return r

    def inline_targets(self, e):
        nm = e.extra
        if not any(path_matches(nm, p) for p in self.inline_tbl):
            return []
        out = []
        for p, b in self.prog.bodies.items():
            if b.is_test:
                continue
            if p == nm:
                return [b]
        # virtual: every implementation of the method
        meth = nm.rsplit("::", 1)[-1]
        for p, b in self.prog.bodies.items():
            if not b.is_test and b.impl_trait and p.endswith("::" + meth) and path_matches(nm, (b.impl_trait.rsplit("::", 1)[-1]) + "::" + meth):
                out.append(b)
        return out

    def subst(self, e, mapping, tag):
        """rebuild a callee expression in the caller: arguments replaced, call nodes re-keyed"""
        if e.k == "arg":
            return mapping.get(e.extra[0])
        if e.k in ("mem", "phi", "undef", "unknown"):
            return None
        a = []
        for x in e.a:
            y = self.subst(x, mapping, tag)
            if y is None:
                return None
            a.append(y)
        nid = (tag, e.nid) if e.nid is not None else None
        return E(e.k, a, ty=e.ty, nid=nid, extra=e.extra)

    # ---- dominance
    def edge_dom(self, body):
        """for every switch edge: the set of nodes it dominates"""
        d = self._edge_dom.get(body.path)
        if d is not None:
            return d
        d = {}
        full = self._reach(body, None, None)
        for n in body.nodes:
            if n.kind != "switch" or n.id not in full:
                continue
            for i, (t, lab) in enumerate(n.succ):
                r = self._reach(body, (n.id, i), None)
                d[(n.id, i)] = full - r
        self._edge_dom[body.path] = d
        return d

    def node_dom(self, body, nid):
        k = (body.path, nid)
        r = self._node_dom.get(k)
        if r is None:
            full = self._reach(body, None, None)
            r = full - self._reach(body, None, nid)
            r.discard(nid)
            self._node_dom[k] = r
        return r

    def _reach(self, body, skip_edge, skip_node):
        seen = set()
        st = [body.entry]
        while st:
            x = st.pop()
            if x in seen or x == skip_node:
                continue
            seen.add(x)
            for i, (t, lab) in enumerate(body.nodes[x].succ):
                if skip_edge is not None and skip_edge == (x, i):
                    continue
                if t not in seen:
                    st.append(t)
        return seen

    # ---- facts
    def cmp_facts(self, ctx, e, truth):
        """facts implied by boolean expression e having value `truth`"""
        for _ in range(6):
            if e.k == "un" and e.extra == "Not":
                truth = not truth
                e = e.a[0]
                continue
            break
        if e.k == "const":
            return []
        if e.k == "bin" and e.extra in CMP:
            a, b = ctx.L(e.a[0]), ctx.L(e.a[1])
            if not (self._intlike(e.a[0]) and self._intlike(e.a[1])):
                return []
            op = e.extra
            if not truth:
                op = {"Lt": "Ge", "Ge": "Lt", "Le": "Gt", "Gt": "Le", "Eq": "Ne", "Ne": "Eq"}[op]
            if op == "Lt":
                return [b - a - const(1)]
            if op == "Le":
                return [b - a]
            if op == "Gt":
                return [a - b - const(1)]
            if op == "Ge":
                return [a - b]
            if op == "Eq":
                return [a - b, b - a]
            if op == "Ne":
                # unsigned x != 0  =>  x >= 1 ; x != c with x <= c known => x <= c - 1 (left to the prover via both guesses)
                if b.is_const() and b.c == 0:
                    return [a - const(1)]
                if a.is_const() and a.c == 0:
                    return [b - const(1)]
                return []
        if e.k == "phi" and e.ty == "bool":
            ent = ctx.f.phi(e.key())
            if ent:
                node, ops, preds = ent
                cand = []
                for o, (p, lab) in zip(ops, preds):
                    v = _const_val(o)
                    if v is not None and bool(v) != truth:
                        continue
                    cand.append((o, p, lab))
                if len(cand) == 1:
                    o, p, lab = cand[0]
                    return self.cmp_facts(ctx, o, truth) + self.facts_at_edge(ctx, p, lab)
        if e.k == "call" and len(e.a) == 2 and truth and (path_matches(e.extra, "Option::is_some_and") or path_matches(e.extra, "Result::is_ok_and")):
            pay = ctx.payload(e.a[0], "Some" if "Option" in e.extra else "Ok", "0")
            if pay is not None and len(pay.t) == 1 and pay.c == 0 and list(pay.t.values())[0] == 1:
                return ctx.closure_pred_facts(list(pay.t)[0], e.a[1])
            return []
        if e.k == "call" and e.a:
            nm = e.extra
            if path_matches(nm, "slice::is_empty") or path_matches(nm, "Vec::is_empty") or path_matches(nm, "Bytes::is_empty"):
                l = ctx.len_of(e.a[0])
                return [l.scale(-1)] if truth else [l - const(1)]
        return []

    def _intlike(self, e):
        return e.ty in UMAX or e.k == "const" or e.ty is None or e.ty in ("i32", "i64", "isize")

    def edge_facts(self, ctx, s, i):
        b = ctx.b
        n = b.nodes[s]
        t, lab = n.succ[i]
        d = ctx.f.operand(n.ev["discr"], s)
        dty = n.ev.get("discr_ty")
        if dty == "bool":
            truth = not (lab == 0)
            return self.cmp_facts(ctx, d, truth)
        if d.k == "discr" and d.a and self.posts:
            x = d.a[0]
            via_try = False
            for _ in range(5):
                if x.k == "call" and x.a and path_matches(x.extra, "Try::branch"):
                    via_try = True
                    x = x.a[0]
                elif x.k == "call" and x.a and path_matches(x.extra, "Result::map_err"):
                    x = x.a[0]
                else:
                    break
            if x.k == "call" and lab == 0:      # ControlFlow::Continue / Result::Ok both have discriminant 0
                pf = self.call_post_facts(ctx, x)
                if pf:
                    return pf
        if d.k == "discr" and d.a:
            inner = d.a[0]
            for _ in range(4):
                if inner.k == "call" and inner.a and any(path_matches(inner.extra, w) for w in ("Option::copied", "Option::cloned", "Option::as_ref")):
                    inner = inner.a[0]
                else:
                    break
            if inner.k == "call" and (path_matches(inner.extra, "slice::get") or path_matches(inner.extra, "Vec::get")) and len(inner.a) == 2 and inner.a[1].ty in UMAX:
                # Some (discriminant 1) exactly when the index is in bounds
                ln, ix = ctx.len_of(inner.a[0]), ctx.L(inner.a[1])
                some = (lab == 1) or (lab == "otherwise" and 0 in [x for (_, x) in n.succ])
                none = (lab == 0)
                if some:
                    return [ln - ix - const(1)]
                if none:
                    return [ix - ln]
        if isinstance(lab, int) and d.ty in UMAX:
            l = ctx.L(d)
            return [l - const(lab), const(lab) - l]
        if lab == "otherwise" and d.ty in UMAX:
            labs = sorted(x for (_, x) in n.succ if isinstance(x, int))
            l = ctx.L(d)
            if labs and labs == list(range(0, len(labs))):
                return [l - const(len(labs))]
        return []

    def facts_at(self, ctx, p):
        """facts that hold whenever execution reaches node p"""
        k = (ctx.b.path, p)
        if k in self._facts_memo:
            return self._facts_memo[k]
        if k in self._facts_busy:
            return []
        self._facts_busy.add(k)
        try:
            b = ctx.b
            out = list(self.contract_facts(ctx))
            if self.invariants:
                out += self.inv_state_facts(ctx, p)
            for (s, i), dom in self.edge_dom(b).items():
                if p in dom:
                    out += self.edge_facts(ctx, s, i)
            # obligations that were passed on the way here
            for ob in self.obligations(ctx):
                if ob.goals and ob.runtime_checked and not isinstance(ob.goals, tuple) and ob.nid != p and p in self.node_dom(b, ob.nid):
                    out += ob.goals
        finally:
            self._facts_busy.discard(k)
        self._facts_memo[k] = out
        return out

    def facts_at_edge(self, ctx, p, lab):
        b = ctx.b
        out = list(self.facts_at(ctx, p))
        n = b.nodes[p]
        if n.kind == "switch":
            for i, (t, l2) in enumerate(n.succ):
                if l2 == lab:
                    out += self.edge_facts(ctx, p, i)
        return out

    # ---- obligations
    def post_lin(self, ctx, fact, arg_val, field_val):
        """instantiate a postcondition row: specs ('arg', i) | ('field', root, name) | ('lenfield', root, name)"""
        l = const(fact[-1])
        for (coef, spec) in fact[:-1]:
            if spec[0] == "arg":
                v = arg_val(spec[1])
                if v is None:
                    return None
                l = l + ctx.L(v).scale(coef)
            else:
                v = field_val(spec[1], spec[2])
                if v is None:
                    return None
                l = l + (ctx.len_of(v) if spec[0] == "lenfield" else ctx.L(v)).scale(coef)
        return l

    def inv_type(self, body):
        """the invariant-carrying type whose method `body` is (self = argument 1), if any"""
        if body.argc < 1:
            return None
        t1 = body.local_ty(1)
        for ty in self.invariants:
            if re.search(r"(^|[ :<&])%s(<|$)" % re.escape(ty), t1) and t1.startswith("&"):
                return ty
        return None

    def inv_rows_at(self, ctx, ty, field_val):
        out = []
        for fact in self.invariants[ty]:
            l = self.post_lin(ctx, fact, lambda i: None, field_val)
            if l is None:
                return None
            out.append(l)
        return out

    def inv_obligations(self, ctx):
        """type invariants: established by every constructor expression, and re-established at every exit of a method that
        may have changed the fields (each `_0 = ..` site, where the field versions are still those of one path)"""
        b = ctx.b
        out = []
        for ty, rows in self.invariants.items():
            for n in b.nodes:
                if n.kind == "assign" and n.ev.get("rv") == "agg" and (n.ev.get("adt") or "").split("<")[0].endswith("::" + ty):
                    names = n.ev.get("fields") or []
                    vals = {nm: ctx.f.operand(o, n.id) for nm, o in zip(names, n.ev["ops"])}
                    ob = Ob(n.id, "Invariant", b.where(n.id))
                    ob.desc = "%s invariant established by this constructor expression" % ty
                    ob.goals = self.inv_rows_at(ctx, ty, lambda root, name: vals.get(name))
                    out.append(ob)
        ty = self.inv_type(b)
        if ty is not None:
            fields = {spec[2] for row in self.invariants[ty] for (c_, spec) in row[:-1]}
            clobbered = bool(ctx.f.mut_calls_of(1)) or any(ctx.f.field_store(n.id, 1, fn) for n in b.nodes for fn in fields)
            if clobbered:
                for n in b.nodes:
                    if n.kind in ("assign", "call") and ((n.ev.get("dst") or n.ev.get("dest") or {}).get("l") == 0) and not (n.ev.get("dst") or n.ev.get("dest"))["p"]:
                        ob = Ob(n.id, "Invariant", b.where(n.id))
                        ob.desc = "%s invariant holds when the method returns from here" % ty
                        ob.goals = self.inv_rows_at(ctx, ty, lambda root, name: ctx.f.field_value_at(1, name, n.id))
                        out.append(ob)
        return out

    def inv_state_facts(self, ctx, p):
        ty = self.inv_type(ctx.b)
        if ty is None:
            return []
        b = ctx.b
        fields = {spec[2] for row in self.invariants[ty] for (c_, spec) in row[:-1]}
        stores = any(ctx.f.field_store(n.id, 1, fn) for n in b.nodes for fn in fields)
        own = all((ty + "::") in callee_name(b.nodes[c].ev) for c in ctx.f.mut_calls_of(1))
        if not stores and own:
            # the fields only ever change inside other methods of the type, each of which re-establishes the invariant:
            # whatever version is current at p satisfies it
            return self.inv_rows_at(ctx, ty, lambda root, name: ctx.f.field_value_at(1, name, p)) or []
        return self.inv_entry_facts(ctx) + self.inv_after_call_facts(ctx, p)

    def inv_entry_facts(self, ctx):
        ty = self.inv_type(ctx.b)
        if ty is None:
            return []
        return self.inv_rows_at(ctx, ty, lambda root, name: ctx.f.field_value_at(1, name, ctx.b.entry)) or []

    def inv_after_call_facts(self, ctx, p):
        """after a `&mut self` method call on an invariant type returned (Ok or Err), the invariant holds for the new field values"""
        b = ctx.b
        ty = self.inv_type(b)
        if ty is None:
            return []
        out = []
        for c in ctx.f.mut_calls_of(1):
            if p != c and p in self.node_dom(b, c):
                nm = callee_name(b.nodes[c].ev)
                if ("::" + ty + "::") not in nm.replace("<'a>::", "").replace("<'_>::", "") and (ty + "::") not in nm:
                    continue
                rows = self.inv_rows_at(ctx, ty, lambda root, name: ctx.f.field_after_call(1, name, c))
                out += rows or []
        return out

    def post_obligations(self, ctx):
        """in a function that carries a postcondition: every `Ok` return site must establish it (fields as they are at exit)"""
        b = ctx.b
        out = []
        for pat, facts in self.posts.items():
            if not path_matches(b.path, pat):
                continue
            sites = [n for n in b.nodes if n.kind == "assign" and not n.ev["dst"]["p"] and n.ev["dst"]["l"] == 0]
            for n in sites:
                ob = Ob(n.id, "Post", b.where(n.id))
                if n.ev.get("rv") == "agg" and n.ev.get("var") == "Err":
                    continue
                ob.desc = "postcondition of %s at this Ok return" % pat
                if not (n.ev.get("rv") == "agg" and n.ev.get("var") == "Ok"):
                    v = ctx.f.nodeval(n.id)
                    if v.k == "call" and path_matches(v.extra, "FromResidual::from_residual"):
                        continue          # `?` propagating an error
                    ob.goals = None
                    out.append(ob)
                    continue
                goals = []
                for fact in facts:
                    l = self.post_lin(ctx, fact,
                                      lambda i: E("arg", ty=b.local_ty(i), extra=(i, b.local_name(i))),
                                      lambda root, name: ctx.f.field_value_at(root, name, n.id))
                    if l is None:
                        goals = None
                        break
                    goals.append(l)
                ob.goals = goals
                out.append(ob)
        return out

    def call_post_facts(self, ctx, call_e):
        """facts the caller may assume once `call_e` (a call to a function with a postcondition) has returned Ok"""
        out = []
        for pat, facts in self.posts.items():
            if not path_matches(call_e.extra, pat) or not isinstance(call_e.nid, int):
                continue
            for fact in facts:
                def field_val(root, name):
                    if root - 1 >= len(call_e.a):
                        return None
                    base = call_e.a[root - 1]
                    if base.k != "arg":
                        return None
                    return ctx.f.field_after_call(base.extra[0], name, call_e.nid)
                l = self.post_lin(ctx, fact, lambda i: call_e.a[i - 1] if i - 1 < len(call_e.a) else None, field_val)
                if l is not None:
                    out.append(l)
        return out

    def obligations(self, ctx):
        obs = getattr(ctx, "_obs", None)
        if obs is not None:
            return obs
        ctx._obs = obs = []
        b = ctx.b
        f = ctx.f
        obs.extend(self.post_obligations(ctx))
        obs.extend(self.inv_obligations(ctx))
        for n in b.nodes:
            if n.kind == "assert":
                msg = n.ev.get("msg", "")
                cond = f.operand(n.ev["cond"], n.id)
                exp = bool(n.ev.get("expected"))
                ob = Ob(n.id, msg.split("(")[0].split(" ")[0].strip(), b.where(n.id))
                if msg.startswith("BoundsCheck"):
                    ob.goals = self.cmp_facts(ctx, cond, exp) or None
                    ob.desc = "index in bounds: " + cond.show()[:90]
                elif msg.startswith("Overflow"):
                    if cond.k == "overflow_flag":
                        ob.goals, ob.desc = self.overflow_goal(ctx, cond)
                    else:
                        ob.goals = self.cmp_facts(ctx, cond, exp) or None
                        ob.desc = "shift amount in range: " + cond.show()[:80]
                elif msg.startswith("DivisionByZero") or msg.startswith("RemainderByZero"):
                    ob.goals = self.cmp_facts(ctx, cond, exp) or None
                    ob.desc = "divisor non-zero: " + cond.show()[:90]
                else:
                    ob.goals = None
                    ob.desc = msg[:60]
                obs.append(ob)
            elif n.kind == "call":
                nm = callee_name(n.ev)
                if (nm.endswith("::index") or nm.endswith("::index_mut")) and len(n.ev["args"]) == 2:
                    base = f.operand(n.ev["args"][0], n.id)
                    rg = f.operand(n.ev["args"][1], n.id)
                    ob = Ob(n.id, "SliceIndex", b.where(n.id))
                    ob.desc = "%s[%s]" % (strip(base).show()[:50], rg.show()[:70])
                    r = ctx.range_of(rg)
                    ln = ctx.len_of(base)
                    if r is not None:
                        kind, lo, hi = r
                        if kind == "Range":
                            ob.goals = [ctx.L(hi) - ctx.L(lo), ln - ctx.L(hi)]
                        elif kind == "RangeTo":
                            ob.goals = [ln - ctx.L(hi)]
                        elif kind == "RangeFrom":
                            ob.goals = [ln - ctx.L(lo)]
                        elif kind == "RangeFull":
                            ob.goals = []
                    elif rg.ty in UMAX:
                        ob.goals = [ln - ctx.L(rg) - const(1)]
                    obs.append(ob)
                elif path_matches(nm, "Result::unwrap") or path_matches(nm, "Result::expect") or path_matches(nm, "Option::unwrap") or path_matches(nm, "Option::expect"):
                    recv = f.operand(n.ev["args"][0], n.id)
                    ob = Ob(n.id, "Unwrap", b.where(n.id))
                    ob.desc = "unwrap of " + recv.show()[:90]
                    x = recv
                    if x.k == "call" and path_matches(x.extra, "bool::then") and x.a:
                        # `cond.then(..).unwrap()`: fine exactly where cond is known to hold
                        ob.goals = self.cmp_facts(ctx, x.a[0], True) or None
                    if x.k == "call" and (path_matches(x.extra, "TryInto::try_into") or path_matches(x.extra, "TryFrom::try_from")) and x.a:
                        m = re.search(r"\[u8; (\d+)\]", x.ty or "")
                        if m:
                            ln = ctx.len_of(x.a[0])
                            ob.goals = [ln - const(int(m.group(1))), const(int(m.group(1))) - ln]
                    obs.append(ob)
                elif path_matches(nm, "slice::copy_from_slice") and len(n.ev["args"]) == 2:
                    d0 = f.operand(n.ev["args"][0], n.id)
                    s0 = f.operand(n.ev["args"][1], n.id)
                    ob = Ob(n.id, "CopyLen", b.where(n.id))
                    ob.desc = "copy_from_slice lengths: %s <- %s" % (strip(d0).show()[:40], strip(s0).show()[:40])
                    a, c = ctx.len_of(d0), ctx.len_of(s0)
                    ob.goals = [a - c, c - a]
                    obs.append(ob)
                elif any(path_matches(nm, x) for x in ("Vec::with_capacity", "vec::from_elem", "AlignedBuffer::new", "Vec::reserve", "Vec::resize", "BytesMut::with_capacity")):
                    idx = {"vec::from_elem": 1, "Vec::reserve": 1, "Vec::resize": 1}.get(next(x for x in ("Vec::with_capacity", "vec::from_elem", "AlignedBuffer::new", "Vec::reserve", "Vec::resize", "BytesMut::with_capacity") if path_matches(nm, x)), 0)
                    sz = f.operand(n.ev["args"][idx], n.id)
                    ob = Ob(n.id, "AllocSize", b.where(n.id))
                    ob.desc = "allocation size bounded: " + sz.show()[:80]
                    ob.goals = [const(ALLOC_CAP) - ctx.L(sz)]
                    obs.append(ob)
                else:
                    # calls into functions that carry an entry contract
                    for pat, items in self.contracts.items():
                        if path_matches(nm, pat):
                            ob = Ob(n.id, "Contract", b.where(n.id))
                            ob.desc = "precondition of %s" % pat
                            goals = []
                            for (what, idx, rel, val) in items:
                                if idx - 1 >= len(n.ev["args"]):
                                    goals = None
                                    break
                                a = f.operand(n.ev["args"][idx - 1], n.id)
                                t = ctx.len_of(a) if what == "len" else ctx.L(a)
                                if rel in ("eq", "ge"):
                                    goals.append(t - const(val))
                                if rel in ("eq", "le"):
                                    goals.append(const(val) - t)
                            ob.goals = goals
                            obs.append(ob)
        return obs

    def overflow_goal(self, ctx, cond):
        # cond = overflow_flag(bin XWithOverflow(a, b))
        x = cond
        if x.k == "overflow_flag" and x.a:
            op = x.a[0]
            a, b = op.a
            ty = a.ty if a.ty in UMAX else (b.ty if b.ty in UMAX else None)
            kind = str(op.extra)
            desc = "%s no overflow: %s, %s" % (kind.replace("WithOverflow", ""), a.show()[:40], b.show()[:40])
            if ty is None:
                return None, desc
            la, lb = ctx.L(a), ctx.L(b)
            other = a if (lb.is_const() and 0 <= lb.c <= 1) else (b if (la.is_const() and 0 <= la.c <= 1) else None)
            if kind.startswith("Add") and UMAX[ty] >= 2 ** 64 - 1 and other is not None and self._is_counter(other):
                # a 64-bit in-memory counter stepped by one cannot wrap: 2^64 steps are not executable. (A value decoded from
                # the device is NOT a counter: it may already be u64::MAX.)
                return [], desc + " [64-bit unit step]"
            if kind.startswith("Add"):
                return [const(UMAX[ty]) - la - lb], desc
            if kind.startswith("Sub"):
                return [la - lb], desc
            if kind.startswith("Mul"):
                if la.is_const():
                    return [const(UMAX[ty]) - lb.scale(la.c)], desc
                if lb.is_const():
                    return [const(UMAX[ty]) - la.scale(lb.c)], desc
                return ("mul", la, lb, UMAX[ty]), desc
        return None, "overflow: " + cond.show()[:60]

    def _is_counter(self, e):
        """a loop variable or an in-memory field, with nothing decoded from bytes in it"""
        while e.k == "cast" and e.a:
            e = e.a[0]
        if e.k == "phi":
            return True
        if e.k == "field" and not any(x.k == "call" for x in e.walk()):
            return True
        return False

    # ---- proving
    def prove(self, ctx, ob):
        """True / False(with reason)"""
        if ob.goals is None:
            return False, "obligation not understood"
        facts = list(self.facts_at(ctx, ob.nid))
        if isinstance(ob.goals, tuple) and ob.goals[0] == "mul":
            _, la, lb, mx = ob.goals
            fs = facts + ctx.facts_for([la, lb] + facts)
            fs += ctx.facts_for(fs)
            ua, ub = fm_bound(fs, la, True), fm_bound(fs, lb, True)
            if ua is not None and ub is not None and ua * ub <= mx:
                return True, ""
            return False, "product bound unknown (%s, %s)" % (ua, ub)
        for g in ob.goals:
            if not self.entails(ctx, facts, g, 0):
                return False, "cannot show  %s >= 0" % g.show(ctx.names)
        return True, ""

    def entails(self, ctx, facts, g, depth):
        fs = facts + ctx.facts_for([g] + facts)
        fs += ctx.facts_for(fs)
        rel = self.relevant(fs, g)
        neg = g.scale(-1) - const(1)
        if fm_unsat(rel + [neg]):
            return True
        if depth >= 3:
            return False
        # case split on a merge that occurs in the goal (or in a fact tied to it): prove the goal for every incoming value
        atoms = set(g.atoms())
        for f_ in rel:
            atoms |= f_.atoms()
        for a in sorted(atoms, key=repr):
            e = ctx.atom_e.get(a)
            if e is not None and e.k == "call" and len(e.a) == 2 and any(path_matches(e.extra, w) for w in ("Ord::min", "cmp::min", "Ord::max", "cmp::max")) and depth < 2:
                x, y = ctx.L(e.a[0]), ctx.L(e.a[1])
                is_min = e.extra.endswith("min")
                ok = True
                for (v, o) in ((x, y), (y, x)):
                    def subm(l, v=v):
                        k = l.t.get(a, 0)
                        if not k:
                            return l
                        t = dict(l.t)
                        del t[a]
                        return Lin(t, l.c) + v.scale(k)
                    extra = [(o - v) if is_min else (v - o)]
                    if not self.entails(ctx, [subm(f_) for f_ in facts] + extra, subm(g), depth + 1):
                        ok = False
                        break
                if ok:
                    return True
                continue
            if e is None or e.k != "phi":
                continue
            ent = ctx.f.phi(e.key())
            if not ent:
                continue
            node, ops, preds = ent
            if len(ops) > 16 or any(any(x.key() == e.key() for x in o.walk()) for o in ops):
                continue
            ok = True
            for o, (p, lab) in zip(ops, preds):
                lo = ctx.L(o)
                def sub(l):
                    k = l.t.get(a, 0)
                    if not k:
                        return l
                    t = dict(l.t)
                    del t[a]
                    return Lin(t, l.c) + lo.scale(k)
                facts2 = [sub(f_) for f_ in facts] + self.facts_at_edge(ctx, p, lab)
                if not self.entails(ctx, facts2, sub(g), depth + 1):
                    ok = False
                    break
            if ok:
                return True
        return False

    def relevant(self, facts, goal):
        atoms = set(goal.atoms())
        out = []
        rest = list(facts)
        changed = True
        while changed:
            changed = False
            keep = []
            for f_ in rest:
                if f_.atoms() & atoms or not f_.atoms():
                    out.append(f_)
                    if not f_.atoms() <= atoms:
                        atoms |= f_.atoms()
                        changed = True
                else:
                    keep.append(f_)
            rest = keep
        return out


class Ob:
    __slots__ = ("nid", "kind", "where", "desc", "goals")

    def __init__(self, nid, kind, where):
        self.nid = nid
        self.kind = kind
        self.where = where
        self.desc = ""
        self.goals = None

    @property
    def runtime_checked(self):
        # the program itself panics when these fail, so code after them may rely on them
        return self.kind not in ("AllocSize", "Contract", "Post", "Progress", "DeviceRange", "Invariant")


def loop_progress(eng, b, local, direction):
    """progress obligations for the loops whose head merges `local`: on every way back to the head the new value is
    >= old + 1 (direction > 0) or <= old - 1. Returns [(Ob, (pred node, edge label))]."""
    c = eng.ctx(b)
    f = c.f
    out = []
    tin, tout = f.reaching(local)
    heads = sorted({t[1] for t in tin.values() if t and t[0] == "phi"})
    # loop heads: merge nodes that can reach themselves
    found = 0
    for m in heads:
        seen, st = set(), [x for (x, _l) in b.nodes[m].succ]
        while st:
            x = st.pop()
            if x in seen:
                continue
            seen.add(x)
            st += [y for (y, _l) in b.nodes[x].succ]
        if m not in seen:
            continue
        if all(pp in seen for (pp, _l) in b.nodes[m].pred):
            continue     # a merge inside the loop body, not the loop head (no edge from outside)
        phi = f.tok_value(local, ("phi", m), m)
        ent = f.phi(phi.key())
        if not ent:
            continue
        _, ops, preds = ent
        # flatten merges inside the loop body: the values that can flow back are the non-phi leaves
        leaves = []
        visited = set()

        def expand(o, p, lab):
            if o.k == "phi" and o.extra[0] == local and o.key() != phi.key():
                if o.key() in visited:
                    return
                visited.add(o.key())
                e2 = f.phi(o.key())
                if e2:
                    for o2, (p2, l2) in zip(e2[1], e2[2]):
                        expand(o2, p2, l2)
                    return
            leaves.append((o, p, lab))
        for o, (p, lab) in zip(ops, preds):
            if p not in seen:
                continue     # entry edge of the loop
            expand(o, p, lab)
        for o, p, lab in leaves:
            found += 1
            ob = Ob(p, "Progress", b.where(p))
            ob.desc = "`%s` strictly %s on the way back to the loop head: %s" % (b.local_name(local) or "_%d" % local, "advances" if direction > 0 else "decreases", o.show()[:70])
            d = c.L(o) - c.L(phi)
            ob.goals = [d - const(1)] if direction > 0 else [d.scale(-1) - const(1)]
            ob_edge = (p, lab)
            out.append((ob, ob_edge))
    return out
