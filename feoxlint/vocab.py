"""Shared vocabulary filled from the repository (DESIGN.md §4): device
primitives, index publication sites, lock classes."""
from .model import path_matches
from . import rulekit as R

# ---- device primitives (§4.1) ------------------------------------------------
P_WRITE = ["libc::pwrite", "libc::pwrite64", "SubmissionQueue::push", "File::set_len", "FileExt::seek_write",
           "FileExt::write_at", "FileExt::write_all_at", "Write::write_all", "Write::write", "libc::write",
           "libc::ftruncate", "libc::fallocate", "libc::pwritev", "fs::write"]
P_SYNC = ["libc::fsync", "libc::fdatasync", "File::sync_all", "File::sync_data"]
P_READ = ["libc::pread", "libc::pread64", "libc::lseek", "Read::read_exact", "FileExt::read_at"]


def _mk(names):
    def pred(name):
        return any(path_matches(name, n) for n in names)
    return pred


is_p_write = _mk(P_WRITE)
is_p_sync = _mk(P_SYNC)
is_p_read = _mk(P_READ)


def writes_device(prog, body):
    """does the body (transitively) reach a device write primitive"""
    return prog.reaches(body.path, is_p_write)


W_REACHING = R.reaching("P_write", is_p_write)
S_REACHING = R.reaching("P_sync", is_p_sync)

# ---- index publication and removal sites (§4.2) ------------------------------
HASH_RECV = r"scc::(hash_map::)?(HashMap|hash_map::(Occupied|Vacant)?Entry)"

PUB_NEW = R.call("VacantEntry::insert_entry", recv_ty=r"scc::hash_map::VacantEntry<.*Arc<core::record::Record>")
PUB_REPL_INSERT = R.call("OccupiedEntry::insert", recv_ty=r"scc::hash_map::OccupiedEntry<.*Arc<core::record::Record>")
REM = R.call("OccupiedEntry::remove", "OccupiedEntry::remove_entry",
             recv_ty=r"scc::hash_map::OccupiedEntry<.*Arc<core::record::Record>")
PUB_REC = R.call("HashMap::upsert", "HashMap::insert", recv_ty=r"scc::HashMap<.*Arc<core::record::Record>|scc::hash_map::HashMap<.*Arc<core::record::Record>")

TREE_RECV = r"crossbeam_skiplist::(map::)?SkipMap<.*TreeSlot"
TREE_INSERT = R.call("SkipMap::insert", "SkipMap::get_or_insert", "SkipMap::get_or_insert_with", "SkipMap::compare_insert", recv_ty=TREE_RECV)
TREE_REMOVE = R.call("SkipMap::remove", recv_ty=TREE_RECV)

# ---- lock classes (§4.3) -----------------------------------------------------
GUARD_TY_RE = (r"(lock_api::(mutex::)?MutexGuard|lock_api::(rwlock::)?RwLock(Read|Write|UpgradableRead)Guard|"
               r"std::sync::(poison::)?(mutex::)?MutexGuard|std::sync::(poison::)?(rwlock::)?RwLock(Read|Write)Guard|"
               r"scc::hash_map::(Occupied|Vacant)?Entry|core::record::ExtentReadGuard|core::cache::RecordCacheEntry)")
