"""Readable dump of a body from the facts (debugging aid): python3 -m feoxlint.dump <fn-suffix> [config]"""
import sys

from . import extract
from .model import Program, callee_name


def fmt_place(pl):
    s = "_%d" % pl["l"]
    for p in pl["p"]:
        if p == "*":
            s = "(*%s)" % s
        elif isinstance(p, dict):
            if "f" in p:
                nm = p.get("n", str(p["f"]))
                s = "%s.%s" % (s, nm)
                if "adt" in p:
                    s += "{%s}" % p["adt"].rsplit("::", 1)[-1]
            elif "dc" in p:
                s = "(%s as %s)" % (s, p["dc"])
            elif "idx" in p:
                s = "%s[_%d]" % (s, p["idx"])
            elif "cidx" in p:
                s = "%s[%d]" % (s, p["cidx"])
            else:
                s = "%s%s" % (s, p)
        else:
            s = "%s.%s" % (s, p)
    return s


def fmt_op(o):
    if o["k"] in ("copy", "move"):
        return ("move " if o["k"] == "move" else "") + fmt_place(o["pl"])
    if o["k"] == "const":
        if "val" in o:
            return "const %s%s" % (o["val"], ("(%s)" % o["def"]) if "def" in o else "")
        if "def" in o:
            return "const %s" % o["def"]
        if "fn" in o:
            return "fn %s" % o["fn"]
        return "const %s" % o.get("txt", "?")[:40]
    return str(o)


def fmt_ev(n):
    ev = n.ev
    k = n.kind
    if k == "assign":
        rv = ev["rv"]
        d = fmt_place(ev["dst"])
        if rv == "use":
            return "%s = %s" % (d, fmt_op(ev["a"]))
        if rv == "ref":
            return "%s = &%s%s" % (d, "mut " if ev["mut"] else "", fmt_place(ev["pl"]))
        if rv == "bin":
            return "%s = %s(%s, %s)" % (d, ev["op"], fmt_op(ev["a"]), fmt_op(ev["b"]))
        if rv == "un":
            return "%s = %s(%s)" % (d, ev["op"], fmt_op(ev["a"]))
        if rv == "discr":
            return "%s = discr(%s)" % (d, fmt_place(ev["pl"]))
        if rv == "cast":
            return "%s = %s as %s [%s]" % (d, fmt_op(ev["a"]), ev["ty"], ev["kind"][:20])
        if rv == "agg":
            nm = ev.get("adt", ev.get("def", ev.get("agg")))
            if "var" in ev:
                nm += "::" + ev["var"]
            return "%s = %s{%s}" % (d, nm, ", ".join(fmt_op(o) for o in ev["ops"]))
        if rv == "rawptr":
            return "%s = &raw %s" % (d, fmt_place(ev["pl"]))
        return "%s = %s %s" % (d, rv, ev.get("txt", "")[:60])
    if k in ("dead", "live"):
        return "%s(_%d)" % (k, ev["l"])
    if k == "call":
        return "%s = %s(%s) [%s]" % (fmt_place(ev["dest"]), callee_name(ev), ", ".join(fmt_op(a) for a in ev["args"]), ev.get("rkind"))
    if k == "switch":
        return "switch(%s)" % fmt_op(ev["discr"])
    if k == "drop":
        return "drop(%s)" % fmt_place(ev["pl"])
    if k == "assert":
        return "assert(%s == %s) %s" % (fmt_op(ev["cond"]), ev["expected"], ev["msg"][:30])
    return k + " " + ev.get("txt", "")[:60]


def dump(body, out=sys.stdout):
    out.write("fn %s  [%s]  sig=%s\n" % (body.path, body.file, body.sig))
    for i, l in enumerate(body.locals):
        if l.get("name"):
            out.write("  let _%d: %s  // %s\n" % (i, l["ty"], l["name"]))
    for n in body.nodes:
        line = n.ev.get("span", {}).get("lo", "")
        out.write("  n%-4d bb%-3d L%-5s %s" % (n.id, n.bb, line, fmt_ev(n)))
        if n.idx == len(body.raw["blocks"][n.bb]["stmts"]):
            out.write("  -> " + ", ".join("%s:n%d" % (l if l is not None else "", s) for s, l in n.succ))
        out.write("\n")


def main():
    name = sys.argv[1]
    cfg = sys.argv[2] if len(sys.argv) > 2 else "lib"
    facts, _ = extract.extract(cfg)
    prog = Program([f for f in facts if f["crate"] == "feoxdb"][0])
    got = [b for b in prog.bodies.values() if name in b.path]
    for b in got:
        full = len(got) == 1 or "-v" in sys.argv
        if full or b.path.endswith(name):
            dump(b)
        else:
            print(b.path)


if __name__ == "__main__":
    main()
