"""CLI: ./check <property-id> [--tier quick|thorough] [--replay file]
Decides the structural clauses of one property on /repo's current source,
writes evidence/<id>.json, prints findings, exits 0 / 1."""
import importlib
import json
import os
import sys
import time
import traceback

from . import extract
from .model import Program
from .rulekit import Ctx

VERIF = extract.VERIF

QUICK_CONFIGS = ["lib"]
THOROUGH_CONFIGS = ["lib", "libtest", "sysalloc", "bin"]


def load_known():
    p = os.path.join(VERIF, "known_findings.json")
    try:
        with open(p) as f:
            d = json.load(f)
    except OSError:
        d = {}
    return d.get("known", []), d.get("fixed", [])


def load_program(config):
    facts, meta = extract.extract(config)
    progs = []
    for f in facts:
        progs.append(Program(f))
    return progs, meta


def run_property(pid, tier, seed):
    t0 = time.time()
    mod = importlib.import_module("rules." + pid)
    configs = THOROUGH_CONFIGS if tier == "thorough" else getattr(mod, "QUICK_CONFIGS", QUICK_CONFIGS)
    configs = [c for c in configs if c in getattr(mod, "CONFIGS", THOROUGH_CONFIGS)]
    all_findings = []
    per_cfg = []
    obligations = []
    analysed = {}
    notes = []
    fatal = None
    for cfg in configs:
        try:
            progs, meta = load_program(cfg)
        except Exception as e:  # fail closed: a tree that cannot be analysed is not "held"
            fatal = "extraction failed for config %s: %s" % (cfg, str(e)[-1500:])
            break
        for prog in progs:
            if prog.crate != "feoxdb" and not getattr(mod, "BIN", False):
                continue
            if prog.crate != "feoxdb" and not hasattr(mod, "check_bin"):
                continue
            if prog.crate == "feoxdb" and cfg == "bin" and "lib" in configs:
                continue        # the library was already analysed in the `lib` configuration of this run
            ctx = Ctx(prog, pid, cfg)
            try:
                if prog.crate == "feoxdb":
                    mod.check(ctx)
                else:
                    mod.check_bin(ctx)
            except Exception:
                ctx.fail("engine", "internal", "-", "rule engine error: " + traceback.format_exc()[-1200:])
            n_calls = sum(len(b.calls()) for b in prog.product_bodies())
            analysed[cfg + ":" + prog.crate] = {
                "bodies": len(prog.bodies), "product_bodies": len(prog.product_bodies()),
                "call_sites": n_calls, "tree": meta["tree"], "cfgs": prog.facts["cfgs"],
            }
            for o in ctx.obligations:
                o = dict(o)
                o["config"] = cfg
                obligations.append(o)
            for f in ctx.findings:
                all_findings.append((cfg, f))
            per_cfg.append((cfg, ctx))
            notes.extend(ctx.notes)
    # post hooks: compile-fail witnesses (C20) in both tiers; seeded-mutant self-test in the thorough tier
    extra = {}
    if fatal is None and hasattr(mod, "post"):
        try:
            extra.update(mod.post(tier, all_findings) or {})
        except Exception:
            all_findings.append(("post", _mk_finding(pid, "post", "internal", "-", "post hook error: " + traceback.format_exc()[-1200:])))
    if fatal is None and tier == "thorough" and not os.environ.get("FEOXLINT_SKIP_MUTANTS"):   # (development aid: configs only)
        try:
            from . import mutants as M
            res = M.run([pid], verbose=False)
            extra["mutant_selftest"] = {
                "total": len(res), "caught": sum(r["status"] in ("caught", "caught-other") for r in res),
                "missed": [r["mutant"] for r in res if r["status"] == "MISSED"],
                "skipped": [r["mutant"] + ": " + r.get("why", "")[:80] for r in res if r["status"] == "skipped"],
            }
            for r in res:
                if r["status"] == "MISSED":
                    all_findings.append(("mutants", _mk_finding(pid, "selftest/" + r["mutant"], "SELFTEST", "-",
                                                                 "checker self-test: seeded mutant `%s` is no longer detected" % r["mutant"])))
        except Exception:
            all_findings.append(("mutants", _mk_finding(pid, "selftest", "internal", "-", "mutant self-test error: " + traceback.format_exc()[-800:])))

    known, fixed = load_known()
    known_keys = {k["key"]: k for k in known if k.get("property") == pid}
    new = []
    seen_known = []
    seen_keys = set()
    for cfg, f in all_findings:
        k = f.key()
        if k in seen_keys:
            continue
        seen_keys.add(k)
        if k in known_keys:
            seen_known.append(known_keys[k])
        else:
            new.append((cfg, f))

    wall = time.time() - t0
    # ---------------------------------------------------------------- evidence
    uniq_sites = set()
    nontrivial = set()
    for cfg, ctx in per_cfg:
        for s in ctx.sites_examined:
            uniq_sites.add(s)
        for s in ctx.nontrivial:
            nontrivial.add(s)
    discharged = sum(1 for o in obligations if o["status"] == "discharged")
    samples = []
    seen_inst = set()
    for o in obligations:
        if o["instance"] in seen_inst and len(samples) > 12:
            continue
        seen_inst.add(o["instance"])
        samples.append({k: o[k] for k in ("instance", "rule", "function", "what", "site", "status", "config")})
        if len(samples) >= 40:
            break
    by_rule = {}
    for o in obligations:
        by_rule[o["rule"]] = by_rule.get(o["rule"], 0) + 1
    ev = {
        "property_id": pid,
        "tier": tier,
        "seed": seed,
        "level": "other",
        "coverage": {
            "explanation": getattr(mod, "EXPLANATION", "").strip() or "structural necessary-condition rules over the type-checked MIR",
            "technique": "static analysis: custom rustc_private MIR driver + repository-specific rule tables (no code of /repo is executed)",
            "obligations": len(obligations),
            "discharged": discharged,
            "evaluations": len(uniq_sites),
            "distinct_nontrivial": len(nontrivial),
            "rule": "one evaluation = one (function, site, obligation) triple examined by a rule instance; non-trivial = a path / "
                    "call-graph / dataflow query had to be run for it (not a mere scope count)",
            "obligations_by_rule": by_rule,
            "instances": sorted(seen_inst_all(obligations)),
            "analysed": analysed,
            "samples": samples,
            "clauses_decided": getattr(mod, "DECIDED", []),
            "clauses_not_decided": getattr(mod, "NOT_DECIDED", []),
            "known_findings_matched": [k["key"] for k in seen_known],
            "exhaustive": False,
            "checker_cmd": "./check %s --tier %s" % (pid, tier),
            "trusted_base": ["rustc MIR construction and drop elaboration (nightly, -Zmir-opt-level=0)",
                             "feoxlint-driver fact extraction", "Instance::try_resolve callee resolution",
                             "rule tables in rules/%s.py and feoxlint/vocab.py" % pid],
        },
        "assumptions": getattr(mod, "ASSUMPTIONS", []) + notes[:10],
        "wall_s": round(wall, 3),
        "violations": len(new) + (1 if fatal else 0),
    }
    ev["coverage"].update(extra)
    os.makedirs(os.path.join(VERIF, "evidence"), exist_ok=True)
    with open(os.path.join(VERIF, "evidence", pid + ".json"), "w") as f:
        json.dump(ev, f, indent=1, sort_keys=True)

    # ---------------------------------------------------------------- report
    print("== %s tier=%s configs=%s obligations=%d discharged=%d wall=%.1fs" % (
        pid, tier, ",".join(analysed.keys()), len(obligations), discharged, wall))
    for k in seen_known:
        print("KNOWN-FINDING: property=%s %s" % (pid, k.get("what", k["key"])))
    rc = 0
    if fatal:
        rp = write_replay(pid, [{"fatal": fatal}])
        print("cannot analyse the tree: " + fatal)
        print("VIOLATION property=%s replay=%s" % (pid, rp))
        return 1
    if new:
        rp = write_replay(pid, [dict(f.to_json(), config=cfg) for cfg, f in new])
        for cfg, f in new:
            print("FINDING [%s] %s %s %s :: %s :: %s" % (cfg, f.site or "-", f.kind, f.inst, f.fn, f.what))
            if f.detail:
                d = f.detail if isinstance(f.detail, str) else json.dumps(f.detail)
                print("    " + d[:1500])
        print("VIOLATION property=%s replay=%s" % (pid, rp))
        rc = 1
    return rc


def seen_inst_all(obligations):
    return {o["instance"] for o in obligations}


def _mk_finding(pid, inst, kind, fn, what):
    from .rulekit import Finding
    return Finding(pid, inst, kind, fn, what)


def write_replay(pid, items):
    d = os.path.join(VERIF, ".cache", "findings")
    os.makedirs(d, exist_ok=True)
    p = os.path.join(d, pid + ".json")
    with open(p, "w") as f:
        json.dump({"property": pid, "findings": items}, f, indent=1)
    return p


def main(argv):
    if len(argv) < 2:
        print("usage: check <property-id> [--tier quick|thorough] [--replay file]")
        return 2
    pid = argv[1]
    tier = os.environ.get("VERIF_TIER", "quick")
    if "--tier" in argv:
        tier = argv[argv.index("--tier") + 1]
    if tier not in ("quick", "thorough"):
        tier = "quick"
    if "--replay" in argv:
        p = argv[argv.index("--replay") + 1]
        with open(p) as f:
            print(f.read())
        print("(replay = re-run of the static check on the current tree)")
    try:
        seed = int(os.environ.get("VERIF_SEED", "0"))
    except ValueError:
        seed = 0
    sys.path.insert(0, VERIF)
    return run_property(pid, tier, seed)


if __name__ == "__main__":
    sys.exit(main(sys.argv))
